"""Native failing-input search for C10 (CapacityLimiter), run under /venv/bin/python against the REAL anyio code
of the tree the obligations came from (PYTHONPATH=$SEGVC_REPO/src is set by segvc.report).

A refuted obligation comes with a solver model of an arbitrary invariant-satisfying pre-state, which need not be
reachable.  To hand the user an input they can run, this script searches for a *history from the initial state*
(public API calls on a real CapacityLimiter inside a real asyncio loop: tasks acquiring on behalf of borrowers,
releases, native cancellations at chosen loop cycles, total_tokens assignments) after which an executable reading
of the property fails.  Directed seed histories first, then seeded-random histories within a time budget.
Bounded and incomplete by construction: finding nothing proves nothing (the VIOLATION line then says
no-failing-input-found); a found history is a genuine failing input.

stdin: the replay JSON (ignored except for the obligation name); last stdout line: `reproduced=True|False ...`.
"""
from __future__ import annotations

import asyncio
import json
import math
import os
import random
import sys
import time

BUDGET_S = float(os.environ.get("SEGVC_REPLAY_BUDGET_S", "20"))
POOL = ["x", "y", "z", "w"]


class Fail(Exception):
    pass


async def _acq(lim, b, out):
    try:
        await lim.acquire_on_behalf_of(b)
        out[b] = "ok"
    except asyncio.CancelledError:
        out[b] = "cancelled"
        raise
    except BaseException as e:  # noqa: BLE001
        out[b] = f"raised {type(e).__name__}"


async def run_history(total0, actions):
    """executes one history on the real code; raises Fail(reason) when the executable oracle is violated"""
    from anyio import CapacityLimiter, WouldBlock

    lim = CapacityLimiter(total0)
    tasks: dict[str, asyncio.Task] = {}
    out: dict[str, str] = {}
    holders: set[str] = set()  # reference model: borrowers whose acquire completed and who have not released
    waiting: list[str] = []  # reference model: in-flight acquires in the order they were started
    cancelled: set[str] = set()

    def absorb():
        """fold finished acquire tasks into the reference model; FCFS: a grant goes to the oldest live waiter"""
        granted_now = [b for b in waiting if out.get(b) == "ok"]
        for b in list(waiting):
            r = out.get(b)
            if r is None:
                continue
            waiting.remove(b)
            if r == "ok":
                holders.add(b)
            elif r.startswith("raised"):
                raise Fail(f"acquire_on_behalf_of({b!r}) {r} (cancelled={b in cancelled}) instead of returning or raising CancelledError")
        return granted_now

    def check(where, settled):
        st = lim.statistics()
        if lim.borrowed_tokens != len(st.borrowers):
            raise Fail(f"{where}: borrowed_tokens={lim.borrowed_tokens} but {len(st.borrowers)} borrowers")
        if lim.available_tokens != lim.total_tokens - len(st.borrowers):
            raise Fail(f"{where}: available_tokens={lim.available_tokens} != total {lim.total_tokens} - borrowed {len(st.borrowers)}")
        if settled:
            if set(st.borrowers) != holders:
                raise Fail(f"{where}: borrowers {sorted(st.borrowers)} != tasks/borrowers that acquired and have not released {sorted(holders)} (leaked or duplicated token)")
            if st.tasks_waiting > 0 and len(st.borrowers) < lim.total_tokens:
                raise Fail(f"{where}: {st.tasks_waiting} waiting although only {len(st.borrowers)} of {lim.total_tokens} tokens are borrowed (lost wake-up)")

    for i, act in enumerate(actions):
        kind, arg, cycles = act
        where = f"after action {i} {act}"
        before = set(lim.statistics().borrowers)
        if kind in ("acq", "nowait") and ((arg in tasks and not tasks[arg].done()) or arg in waiting or arg in before or arg in holders):
            pass  # A-borrower: one borrower identity is used by at most one acquire at a time (and never twice)
        elif kind == "acq":
            out.pop(arg, None)
            tasks[arg] = asyncio.ensure_future(_acq(lim, arg, out))
            waiting.append(arg)
            cancelled.discard(arg)
        elif kind == "nowait":
            try:
                lim.acquire_on_behalf_of_nowait(arg)
                holders.add(arg)
            except WouldBlock:
                pass
            except RuntimeError:
                if arg not in before:
                    raise Fail(f"{where}: RuntimeError for a borrower that holds nothing")
        elif kind == "rel_if_holder" and arg not in holders:
            pass  # A-borrower: nobody releases for a borrower whose acquire is still in flight
        elif kind in ("rel", "rel_if_holder"):
            try:
                lim.release_on_behalf_of(arg)
                if arg not in before:
                    raise Fail(f"{where}: release by non-borrower accepted")
                holders.discard(arg)
            except RuntimeError:
                if arg in holders:
                    raise Fail(f"{where}: release by a holder rejected")
        elif kind == "cancel":
            t = tasks.get(arg)
            if t is not None and not t.done():
                t.cancel()
                cancelled.add(arg)
        elif kind == "total":
            lim.total_tokens = arg
        after = set(lim.statistics().borrowers)
        if (after - before) and len(after) > lim.total_tokens:
            raise Fail(f"{where}: a token was granted with none free: {len(after)} borrowers of {lim.total_tokens} tokens")
        # FCFS inside one synchronous action: newly reserved tokens go to the oldest waiters
        for _ in range(cycles):
            b0 = set(lim.statistics().borrowers)
            await asyncio.sleep(0)
            b1 = set(lim.statistics().borrowers)
            if (b1 - b0) and len(b1) > lim.total_tokens:
                raise Fail(f"{where}: during a loop cycle a token was granted with none free: {len(b1)} of {lim.total_tokens}")
        live_before = [b for b in waiting if b not in cancelled]
        granted = absorb()
        for g in granted:
            if g in cancelled:
                continue
            older = [b for b in live_before[: live_before.index(g)] if b not in granted and b in waiting]
            if older:
                raise Fail(f"{where}: {g!r} was served before older live waiter(s) {older} (not FCFS)")
        check(where, settled=cycles >= 3 and not (set(waiting) & cancelled))
    for _ in range(4):
        await asyncio.sleep(0)
    absorb()
    check("at the end (settled)", settled=True)
    for t in tasks.values():
        t.cancel()
    await asyncio.gather(*tasks.values(), return_exceptions=True)


SEEDS = [
    (2, [("acq", "x", 3), ("acq", "y", 3), ("acq", "z", 3), ("total", 0, 3), ("total", 2, 3)]),
    (1, [("acq", "x", 1), ("cancel", "x", 3)]),
    (2, [("acq", "x", 3), ("acq", "y", 3), ("acq", "z", 3), ("total", 1, 3), ("rel", "x", 3)]),
    (1, [("acq", "x", 3), ("acq", "y", 3), ("rel", "x", 0), ("cancel", "y", 3)]),
    (1, [("acq", "x", 3), ("acq", "y", 3), ("acq", "z", 3), ("rel", "x", 0), ("cancel", "y", 3)]),
    (1, [("acq", "x", 3), ("acq", "y", 3), ("acq", "z", 3), ("rel", "x", 3), ("rel", "y", 3)]),
    (1, [("acq", "x", 3), ("acq", "y", 3), ("total", 2, 3), ("total", 3, 3)]),
    (1, [("acq", "x", 3), ("nowait", "y", 3)]),
    (2, [("acq", "x", 3), ("acq", "y", 3), ("acq", "z", 3), ("acq", "w", 3), ("total", math.inf, 3)]),
]


def random_history(rng):
    total0 = rng.choice([0, 1, 1, 2, 2, 3])
    n = rng.randint(2, 9)
    inflight, holders, acts = [], [], []
    for _ in range(n):
        choices = ["acq", "acq", "total"]
        if inflight:
            choices += ["cancel"]
        if holders or inflight:
            choices += ["rel", "rel"]
        choices += ["nowait"] if rng.random() < 0.3 else []
        k = rng.choice(choices)
        cycles = rng.choice([0, 1, 3, 3, 3])
        if k == "acq":
            free = [b for b in POOL if b not in inflight and b not in holders]
            if not free:
                continue
            b = rng.choice(free)
            inflight.append(b)
            acts.append(("acq", b, cycles))
        elif k == "nowait":
            free = [b for b in POOL if b not in inflight and b not in holders]
            if not free:
                continue
            b = rng.choice(free)
            holders.append(b)  # maybe
            acts.append(("nowait", b, cycles))
        elif k == "cancel":
            b = rng.choice(inflight)
            inflight.remove(b)
            acts.append(("cancel", b, cycles))
        elif k == "rel":
            b = rng.choice(holders + inflight)
            acts.append(("rel?", b, cycles))  # executed only if b is a settled holder at that moment
        else:
            acts.append(("total", rng.choice([0, 1, 2, 3, math.inf]), cycles))
    return total0, acts


def main():
    ob = None
    if "--obligation" in sys.argv:
        ob = sys.argv[sys.argv.index("--obligation") + 1]
    try:
        json.load(sys.stdin)
    except Exception:  # noqa: BLE001
        pass
    import anyio

    root = os.environ.get("SEGVC_REPO", "/repo")
    print(f"anyio imported from {anyio.__file__}")
    if not os.path.abspath(anyio.__file__).startswith(os.path.abspath(root)):
        print(f"reproduced=False reason=anyio was not imported from {root}")
        return
    if ob and not ob.startswith("CapacityLimiter"):
        print("reproduced=False reason=no native search is built for this class (Semaphore); solver model attached")
        return
    if "--history" in sys.argv:  # re-execute recorded failing histories on the current tree
        hs = json.loads(sys.argv[sys.argv.index("--history") + 1])
        again = 0
        for total0, acts in hs:
            acts = [(k, (math.inf if a == "inf" else a), c) for k, a, c in acts]
            try:
                asyncio.run(run_history(math.inf if total0 == "inf" else total0, acts))
                print(f"history {[total0, acts]}: property holds on this tree")
            except Fail as e:
                again += 1
                print(f"history {[total0, acts]}: FAILS on this tree: {e}")
        print(f"reproduced={again > 0} histories_rerun={len(hs)} failing={again}")
        return
    seed = int(os.environ.get("VERIF_SEED", "0") or 0)
    rng = random.Random(seed)
    t0 = time.time()
    tried = 0

    def kind_of(why):
        for k in ("granted with none free", "instead of returning", "leaked or duplicated", "lost wake-up", "not FCFS", "available_tokens", "borrowed_tokens", "release by", "RuntimeError for"):
            if k in why:
                return k
        return why

    async def driver():
        nonlocal tried
        found = {}
        for total0, acts in SEEDS:  # all directed histories: one report per distinct kind of failure
            tried += 1
            try:
                await run_history(total0, acts)
            except Fail as e:
                found.setdefault(kind_of(str(e)), (total0, acts, str(e)))
        while not found and time.time() - t0 < BUDGET_S:
            total0, acts = random_history(rng)
            acts = [("rel_if_holder", a[1], a[2]) if a[0] == "rel?" else a for a in acts]
            tried += 1
            try:
                await run_history(total0, acts)
            except Fail as e:
                found[kind_of(str(e))] = (total0, acts, str(e))
        return list(found.values())

    found = asyncio.run(driver())
    if not found:
        print(f"reproduced=False reason=no failing history among {tried} ({len(SEEDS)} directed + seeded-random, {BUDGET_S:.0f}s budget, seed {seed})")
        return
    hs = []
    for total0, acts, why in found:
        print("failing history on the real code: CapacityLimiter(%r); " % (total0,) + "; ".join(f"{k}({a!r}) then {c} loop cycle(s)" for k, a, c in acts))
        print("  oracle: " + why)
        hs.append([total0, [[k, (a if a != math.inf else "inf"), c] for k, a, c in acts]])
    print(f"reproduced=True histories_tried={tried} failing_histories={json.dumps(hs)}")


if __name__ == "__main__":
    main()
