"""Native failing-input search for C12 / C13 (memory object streams), run under /venv/bin/python against the REAL
anyio code of the tree the obligations came from (PYTHONPATH=$SEGVC_REPO/src is set by segvc.report).

Histories are sequences of public-API actions on one real stream inside a real asyncio loop; after every action an
executable reading of the properties is evaluated against a reference automaton (FIFO of accepted items, slots of
blocked receivers, clone counts):

  exactly-once / order   every item whose send completed is received once, in order, or is still in the buffer; items
                         received = a prefix-respecting subsequence of items accepted; nothing invented
  bound                  statistics().current_buffer_used <= max_buffer_size
  errors                 EndOfStream only if all send clones closed and nothing buffered/pending; BrokenResourceError
                         only if all receive clones closed; ClosedResourceError iff the handle itself is closed
  closing                after the last clone of a side is closed no task stays blocked on the other side
  counts                 statistics().open_send_streams / open_receive_streams == true number of open clones

Directed histories first, then seeded-random ones within a time budget.  Bounded and incomplete: finding nothing
proves nothing (the VIOLATION line then ends with no-failing-input-found); a found history is a genuine failing input.
Last stdout line: `reproduced=True|False ...`; a found history is printed as `failing_histories=<json>` and can be
re-run with `--history '<json>'`.
"""
from __future__ import annotations

import asyncio
import json
import math
import os
import random
import sys
import time

BUDGET_S = float(os.environ.get("SEGVC_REPLAY_BUDGET_S", "20"))


class Fail(Exception):
    pass


async def run_history(maxbuf, actions, allow_native_cancel_loss=False):
    import anyio
    from anyio import BrokenResourceError, ClosedResourceError, EndOfStream, WouldBlock, create_memory_object_stream

    send0, recv0 = create_memory_object_stream(math.inf if maxbuf == "inf" else maxbuf)
    sends, recvs = [send0], [recv0]
    closed_s, closed_r = set(), set()
    accepted: list = []  # items whose send completed (or send_nowait returned)
    nowait_items: list = []  # items accepted by the driver's own send_nowait calls: one sender, so their order is fixed
    received: list = []
    nowait_received: list = []  # items taken by the driver's own receive_nowait calls: one receiver, so order is observable
    tasks: dict[str, asyncio.Task] = {}
    results: dict[str, object] = {}
    pending_send_items: dict[str, object] = {}
    scopes: dict[str, anyio.CancelScope] = {}
    native_cancelled: set[str] = set()
    counter = [0]

    async def do_send(name, h, item):
        with anyio.CancelScope() as sc:
            scopes[name] = sc
            try:
                await sends[h].send(item)
                results[name] = ("sent", item)
            except BaseException as e:  # noqa: BLE001
                results[name] = ("raised", type(e).__name__, item)
                raise

    async def do_recv(name, h):
        with anyio.CancelScope() as sc:
            scopes[name] = sc
            try:
                results[name] = ("got", await recvs[h].receive())
            except BaseException as e:  # noqa: BLE001
                results[name] = ("raised", type(e).__name__)
                raise

    folded: set[str] = set()

    def fold():
        for name, r in list(results.items()):
            if name in folded:
                continue
            folded.add(name)
            if r[0] == "sent":
                accepted.append(r[1])
            elif r[0] == "got":
                received.append(r[1])
            elif r[0] == "raised" and name.startswith("s") and r[1] == "CancelledError":
                # an interrupted send may or may not have delivered its item (at most once is checked below)
                pending_send_items[name] = r[2]

    def check(final=False):
        fold()
        st = send0.statistics()
        n_open_s = len(sends) - len(closed_s)
        n_open_r = len(recvs) - len(closed_r)
        if st.open_send_streams != n_open_s or st.open_receive_streams != n_open_r:
            raise Fail(f"statistics() reports {st.open_send_streams}/{st.open_receive_streams} open clones, true numbers are {n_open_s}/{n_open_r}")
        if st.current_buffer_used > st.max_buffer_size:
            raise Fail(f"buffer holds {st.current_buffer_used} items, max_buffer_size is {st.max_buffer_size}")
        # no duplicates / nothing invented; order
        maybe = list(pending_send_items.values())
        pool = accepted + maybe
        for x in received:
            if received.count(x) > 1:
                raise Fail(f"item {x!r} was delivered twice")
            if x not in pool and not any(t for t in tasks.values() if not t.done()):
                raise Fail(f"item {x!r} was received but never accepted")
        if n_open_s == 0 and st.tasks_waiting_receive:
            raise Fail("every send clone is closed but a receiver is still queued")
        for name, r in results.items():
            if r[0] == "raised" and r[1] in ("KeyError", "AttributeError", "RuntimeError", "IndexError"):
                raise Fail(f"{name} leaked an internal error {r[1]}")

    for act in actions:
        kind = act[0]
        if kind == "send":  # blocking send in a task
            counter[0] += 1
            name = f"s{counter[0]}"
            tasks[name] = asyncio.ensure_future(do_send(name, act[1] % len(sends), f"i{counter[0]}"))
        elif kind == "recv":
            counter[0] += 1
            name = f"r{counter[0]}"
            tasks[name] = asyncio.ensure_future(do_recv(name, act[1] % len(recvs)))
        elif kind == "send_nowait":
            counter[0] += 1
            h = act[1] % len(sends)
            item = f"i{counter[0]}"
            try:
                sends[h].send_nowait(item)
                accepted.append(item)
                nowait_items.append(item)
            except ClosedResourceError:
                if h not in closed_s:
                    raise Fail("send_nowait raised ClosedResourceError on an open handle")
            except BrokenResourceError:
                if len(recvs) - len(closed_r) != 0:
                    raise Fail("send_nowait raised BrokenResourceError although a receive clone is open")
            except WouldBlock:
                pass
        elif kind == "recv_nowait":
            h = act[1] % len(recvs)
            try:
                x = recvs[h].receive_nowait()
                received.append(x)
                nowait_received.append(x)
            except ClosedResourceError:
                if h not in closed_r:
                    raise Fail("receive_nowait raised ClosedResourceError on an open handle")
            except EndOfStream:
                st = send0.statistics()
                if len(sends) - len(closed_s) != 0 or st.current_buffer_used or st.tasks_waiting_send:
                    raise Fail("receive_nowait raised EndOfStream although a send clone is open or items remain")
            except WouldBlock:
                pass
        elif kind == "clone_s":
            h = act[1] % len(sends)
            try:
                sends.append(sends[h].clone())
            except ClosedResourceError:
                if h not in closed_s:
                    raise Fail("clone raised ClosedResourceError on an open handle")
        elif kind == "clone_r":
            h = act[1] % len(recvs)
            try:
                recvs.append(recvs[h].clone())
            except ClosedResourceError:
                if h not in closed_r:
                    raise Fail("clone raised ClosedResourceError on an open handle")
        elif kind == "close_s":
            h = act[1] % len(sends)
            sends[h].close()
            closed_s.add(h)
        elif kind == "close_r":
            h = act[1] % len(recvs)
            recvs[h].close()
            closed_r.add(h)
        elif kind == "cancel":  # AnyIO scope cancellation of the k-th live task
            live = [n for n, t in tasks.items() if not t.done()]
            if live:
                n = live[act[1] % len(live)]
                if n in scopes:
                    scopes[n].cancel()
        elif kind == "native_cancel":
            live = [n for n, t in tasks.items() if not t.done()]
            if live:
                n = live[act[1] % len(live)]
                tasks[n].cancel()
                native_cancelled.add(n)
        elif kind == "step":
            for _ in range(act[1]):
                await asyncio.sleep(0)
        check()
    for _ in range(12):
        await asyncio.sleep(0)
    check(final=True)
    # conservation at quiescence: accepted = received ++ buffer (+ possibly items of interrupted sends), in order
    st = send0.statistics()
    rest = []
    if closed_r != set(range(len(recvs))):
        h = next(i for i in range(len(recvs)) if i not in closed_r)
        blocked = [n for n, t in tasks.items() if not t.done()]
        if not blocked:
            while True:
                try:
                    rest.append(recvs[h].receive_nowait())
                except (WouldBlock, EndOfStream):
                    break
            got_all = received + rest
            lost = [x for x in accepted if x not in got_all]
            if lost and not (allow_native_cancel_loss and native_cancelled):
                raise Fail(f"accepted items {lost} were neither received nor left in the buffer (received={received}, buffer={rest})")
            order = [x for x in nowait_received + rest if x in nowait_items]
            if order != [x for x in nowait_items if x in order]:
                raise Fail(f"items of one sender arrived out of order: sent {nowait_items}, delivered {got_all}")
            for x in got_all:
                if got_all.count(x) > 1:
                    raise Fail(f"item {x!r} delivered twice")
    # closing wakes everyone
    if len(sends) == len(closed_s):
        stuck = [n for n, t in tasks.items() if n.startswith("r") and not t.done()]
        if stuck:
            raise Fail(f"all send clones are closed but receivers {stuck} are still blocked")
    if len(recvs) == len(closed_r):
        stuck = [n for n, t in tasks.items() if n.startswith("s") and not t.done()]
        if stuck:
            raise Fail(f"all receive clones are closed but senders {stuck} are still blocked")
    for t in tasks.values():
        t.cancel()
    await asyncio.gather(*tasks.values(), return_exceptions=True)
    for name, r in results.items():
        if r[0] == "raised" and r[1] == "EndOfStream" and len(sends) != len(closed_s):
            raise Fail(f"{name} raised EndOfStream although a send clone is still open")
        if r[0] == "raised" and r[1] == "BrokenResourceError" and len(recvs) != len(closed_r):
            raise Fail(f"{name} raised BrokenResourceError although a receive clone is still open")


DIRECTED = [
    (1, [("recv", 0), ("step", 2), ("send_nowait", 0), ("native_cancel", 0), ("step", 3)]),  # F7
    (1, [("recv", 0), ("step", 2), ("send_nowait", 0), ("cancel", 0), ("step", 3)]),
    (0, [("send", 0), ("send", 0), ("step", 2), ("recv_nowait", 0), ("recv_nowait", 0), ("step", 2)]),
    (1, [("send_nowait", 0), ("send", 0), ("send", 0), ("step", 2), ("recv_nowait", 0), ("recv_nowait", 0), ("recv_nowait", 0), ("step", 2)]),
    (0, [("recv", 0), ("recv", 0), ("step", 2), ("close_s", 0), ("step", 3)]),
    (0, [("send", 0), ("send", 0), ("step", 2), ("close_r", 0), ("step", 3)]),
    (0, [("clone_s", 0), ("close_s", 0), ("close_s", 0), ("recv", 0), ("step", 2), ("send_nowait", 1), ("step", 2)]),
    (0, [("send", 0), ("step", 2), ("close_s", 0), ("recv_nowait", 0), ("step", 2)]),
    (0, [("clone_r", 0), ("recv", 0), ("step", 2), ("close_r", 1), ("step", 2), ("send_nowait", 0), ("step", 2)]),
    (0, [("recv", 0), ("step", 2), ("cancel", 0), ("send", 0), ("step", 1), ("recv_nowait", 0), ("step", 3)]),
    (2, [("send_nowait", 0), ("send_nowait", 0), ("send", 0), ("send", 0), ("step", 2), ("recv", 0), ("recv", 0), ("recv", 0), ("recv", 0), ("step", 4)]),
    # the head receiver is cancelled in the very cycle in which two items are sent: the next receiver gets the first item
    (1, [("recv", 0), ("recv", 0), ("step", 2), ("cancel", 0), ("send_nowait", 0), ("send_nowait", 0), ("step", 3), ("recv_nowait", 0), ("step", 2)]),
    (2, [("recv", 0), ("recv", 0), ("recv", 0), ("step", 2), ("cancel", 0), ("cancel", 1), ("send_nowait", 0), ("send_nowait", 0), ("step", 3), ("recv_nowait", 0), ("step", 2)]),
]
KINDS = ["send", "recv", "send_nowait", "recv_nowait", "clone_s", "clone_r", "close_s", "close_r", "cancel", "step", "step"]


def random_history(rng, native):
    n = rng.randint(3, 12)
    acts = []
    for _ in range(n):
        k = rng.choice(KINDS + (["native_cancel"] if native else []))
        acts.append((k, rng.randint(1, 3) if k == "step" else rng.randint(0, 3)))
    return rng.choice([0, 0, 1, 2, "inf"]), acts


def try_history(h, allow):
    try:
        asyncio.run(asyncio.wait_for(run_history(h[0], [tuple(a) for a in h[1]], allow_native_cancel_loss=allow), 20))
        return None
    except Fail as f:
        return str(f)
    except asyncio.TimeoutError:
        return "history did not finish (a task stayed blocked)"


def main(argv):
    if "--history" in argv:
        h = json.loads(argv[argv.index("--history") + 1])
        why = try_history(h, False)
        print(f"history {h}: {why or 'no property violated'}")
        print(f"reproduced={why is not None}")
        return
    obligation = argv[argv.index("--obligation") + 1] if "--obligation" in argv else ""
    native_ok = "native_cancel" in obligation  # the native-cancellation hole (finding F7) is searched only for its own obligation
    seed = int(os.environ.get("VERIF_SEED", "0") or 0)
    rng = random.Random(seed)
    t0 = time.time()
    tried = 0
    found = None
    for h in DIRECTED:
        if any(a[0] == "native_cancel" for a in h[1]) and not native_ok:
            continue
        tried += 1
        why = try_history(h, False)
        if why:
            found = (h, why)
            break
    while found is None and time.time() - t0 < BUDGET_S:
        h = random_history(rng, native_ok)
        tried += 1
        why = try_history(h, False)
        if why:
            found = (h, why)
    if found:
        print(f"failing history on the real code: max_buffer_size={found[0][0]} actions={found[0][1]}: {found[1]}")
        print("failing_histories=" + json.dumps([found[0][0], found[0][1]]))
        print(f"reproduced=True histories_tried={tried}")
    else:
        print(f"reproduced=False histories_tried={tried} seconds={time.time() - t0:.1f}")


if __name__ == "__main__":
    main(sys.argv[1:])
