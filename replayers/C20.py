"""Native failing-input search for C20 (async lru_cache), run under /venv/bin/python against the REAL anyio code of the
tree the obligations came from (PYTHONPATH=$SEGVC_REPO/src).

(1) failing-input search (default): directed programs + a seeded random search over small histories
      callers x keys {a,b,c} x completion order, the wrapped function suspends / fails as scripted
    and the observations the property names: value returned vs. the wrapped function's own log, number of concurrent
    executions per key, exceptions that the wrapped function did not raise.  The random part runs with maxsize=None
    only: with a bound, the three recorded known findings (in-flight entry evicted; value stored and lost again;
    KeyError for a waiter) would be found over and over and be mis-attributed to whatever obligation is being replayed.
    Directed programs for exactly those three are run when the replayed obligation is one of them.
(2) `--bounded-key`: BOUNDED STAND-IN (not a proof, never counted as discharged) for the key construction that the
    deductive check abstracts: for all pairs of calls over a small universe of positional / keyword arguments
    (values 1, 1.0, True, "1", None; up to 2 positional and 2 keyword arguments; typed on / off) two calls share a
    cache entry iff their arguments are equal (tuple / dict-item equality in call order) and, with typed=True, all
    argument types agree.

Last stdout line `reproduced=True|False ...`; found programs are printed as `failing_histories=<json>`; `--history`.
"""
from __future__ import annotations

import asyncio
import itertools
import json
import os
import random
import sys


class Fail(Exception):
    pass


# ---- directed programs for the three known findings -----------------------------------------------------------------


async def w_keyerror():
    import anyio
    from anyio import Event, create_task_group
    from anyio.functools import lru_cache

    gate = {}

    @lru_cache(maxsize=1)
    async def f(k):
        await gate.setdefault(k, Event()).wait()
        if k == "a":
            raise ValueError("boom")
        return k

    out = {}

    async def call(name, k):
        try:
            out[name] = ("ok", await f(k))
        except BaseException as e:  # noqa: BLE001
            out[name] = (type(e).__name__, str(e))

    async with create_task_group() as tg:
        tg.start_soon(call, "A", "a")
        await anyio.sleep(0.01)
        tg.start_soon(call, "C", "a")
        await anyio.sleep(0.01)
        tg.start_soon(call, "B", "b")
        await anyio.sleep(0.01)
        gate["a"].set()
        await anyio.sleep(0.01)
        for k in ("a", "b"):
            gate.setdefault(k, Event()).set()
    if out.get("C", ("",))[0] not in ("ok", "ValueError"):
        raise Fail(f"maxsize=1; A computes a, C waits for a, B computes b (evicts a's in-flight entry), A fails: C observes {out['C']} - an internal error the wrapped function never raised")


async def w_evicted_inflight():
    import anyio
    from anyio import Event, create_task_group
    from anyio.functools import lru_cache

    active, peak = {}, {}
    gate = Event()

    @lru_cache(maxsize=1)
    async def f(k):
        active[k] = active.get(k, 0) + 1
        peak[k] = max(peak.get(k, 0), active[k])
        await gate.wait()
        active[k] -= 1
        return k

    async with create_task_group() as tg:
        tg.start_soon(f, "a")
        await anyio.sleep(0.01)
        tg.start_soon(f, "b")
        await anyio.sleep(0.01)
        tg.start_soon(f, "a")
        await anyio.sleep(0.01)
        gate.set()
    if peak.get("a", 0) > 1:
        raise Fail(f"maxsize=1; f(a) in flight, f(b) starts (evicts a's in-flight entry), f(a) called again: {peak['a']} concurrent executions of the wrapped function for a")


async def w_value_lost():
    import anyio
    from anyio import Event, create_task_group
    from anyio.functools import lru_cache

    active, peak, calls = {}, {}, []
    release_a, go, hold = Event(), Event(), Event()

    @lru_cache(maxsize=1)
    async def f(k):
        active[k] = active.get(k, 0) + 1
        peak[k] = max(peak.get(k, 0), active[k])
        calls.append(k)
        try:
            if k == "a" and calls.count("a") == 1:
                await release_a.wait()
                go.set()
            else:
                await hold.wait()
            return k
        finally:
            active[k] -= 1

    async def later(k):
        await go.wait()
        return await f(k)

    async with create_task_group() as tg:
        tg.start_soon(f, "a")
        await anyio.sleep(0.01)
        tg.start_soon(f, "a")
        tg.start_soon(later, "b")
        tg.start_soon(later, "a")
        await anyio.sleep(0.01)
        release_a.set()
        await anyio.sleep(0.05)
        hold.set()
    if peak.get("a", 0) > 1:
        raise Fail(f"maxsize=1; A computes a, W waits for a; A finishes (value stored, lock handed to W); before W runs f(b) evicts a's value and X calls f(a) and computes; W computes too: {peak['a']} concurrent executions for a (calls {calls})")


DIRECTED = {"keyerror_after_inflight_eviction": w_keyerror, "second_execution_after_inflight_eviction": w_evicted_inflight, "second_execution_after_value_lost": w_value_lost}


# ---- LRU order (sequential, no in-flight eviction involved) ---------------------------------------------------------------


async def w_lru_order():
    import anyio
    from anyio import Event, create_task_group
    from anyio.functools import lru_cache

    calls = []
    gate = Event()

    @lru_cache(maxsize=2)
    async def f(k):
        calls.append(k)
        if k == "a" and calls.count("a") == 1:
            await gate.wait()
        return k

    async with create_task_group() as tg:
        tg.start_soon(f, "a")  # a in flight (placeholder inserted first)
        await anyio.sleep(0.01)
        tg.start_soon(f, "a")  # contested: waits for a's lock, then hits
        await anyio.sleep(0.01)
        await f("b")  # b inserted after a
        gate.set()
    await anyio.sleep(0.01)
    # a was used last (contested hit after b was stored): the next insertion must evict b, not a
    await f("c")
    before = len(calls)
    await f("a")
    if len(calls) != before:
        raise Fail(f"maxsize=2; a computed (contested hit by a waiter after b was stored), then c inserted: a was evicted although it was used more recently than b (calls {calls})")


# ---- random small histories, maxsize=None ---------------------------------------------------------------------------------


async def run_history(hist):
    """hist: list of (caller, key, fails) started in order; then events released in the given order"""
    import anyio
    from anyio import Event, create_task_group
    from anyio.functools import lru_cache

    starts, order = hist
    active, peak, log = {}, {}, []
    gates = [Event() for _ in starts]
    nth = {"n": 0}

    @lru_cache(maxsize=None)
    async def f(k):
        i = nth["n"]
        nth["n"] += 1
        active[k] = active.get(k, 0) + 1
        peak[k] = max(peak.get(k, 0), active[k])
        try:
            await gates[min(i, len(gates) - 1)].wait()
            if starts[min(i, len(starts) - 1)][1]:
                raise ValueError(f"fail-{k}-{i}")
            v = (k, i)
            log.append(v)
            return v
        finally:
            active[k] -= 1

    res = {}

    async def call(j, k):
        try:
            res[j] = ("ok", await f(k))
        except ValueError as e:
            res[j] = ("ValueError", str(e))
        except BaseException as e:  # noqa: BLE001
            res[j] = (type(e).__name__, str(e))

    async with create_task_group() as tg:
        for j, (k, _fails) in enumerate(starts):
            tg.start_soon(call, j, k)
            await anyio.sleep(0)
        for i in order:
            gates[i].set()
            await anyio.sleep(0)
            await anyio.sleep(0)
        for g in gates:
            g.set()
    for j, (kind, val) in res.items():
        if kind == "ok" and (val not in log or val[0] != starts[j][0]):
            raise Fail(f"history {hist}: caller {j} got {val}, which the wrapped function never returned for key {starts[j][0]}")
        if kind not in ("ok", "ValueError"):
            raise Fail(f"history {hist}: caller {j} observed {kind}: {val} - not raised by the wrapped function")
    for k, p in peak.items():
        if p > 1:
            raise Fail(f"history {hist}: {p} concurrent executions of the wrapped function for key {k}")


def random_history(rng):
    n = rng.randint(2, 4)
    starts = [(rng.choice("ab"), rng.random() < 0.3) for _ in range(n)]
    order = list(range(n))
    rng.shuffle(order)
    return [starts, order]


# ---- bounded stand-in for the key construction ------------------------------------------------------------------------------


def bounded_key():
    import anyio
    from anyio.functools import lru_cache

    vals = [1, 1.0, True, "1", None]
    shapes = []
    for npos in (0, 1, 2):
        for pos in itertools.product(vals, repeat=npos):
            shapes.append((pos, {}))
            for kv in vals:
                shapes.append((pos, {"x": kv}))
    shapes = shapes[:120]
    n = 0
    for typed in (False, True):
        calls = []

        @lru_cache(maxsize=None, typed=typed)
        async def f(*a, **k):
            calls.append(1)
            return object()

        async def main():
            nonlocal n
            for a1, k1 in shapes:
                for a2, k2 in shapes[:60]:
                    f.cache_clear()
                    calls.clear()
                    await f(*a1, **k1)
                    await f(*a2, **k2)
                    same = len(calls) == 1
                    want = a1 == a2 and list(k1.items()) == list(k2.items())
                    if typed:
                        want = want and [type(x) for x in a1] == [type(x) for x in a2] and [type(x) for x in k1.values()] == [type(x) for x in k2.values()]
                    n += 1
                    if same != want:
                        raise Fail(f"typed={typed}: calls {a1, k1} and {a2, k2} {'share' if same else 'do not share'} a cache entry, but their arguments are {'equal' if want else 'different'}")

        anyio.run(main)
    return n


def main(argv):
    if "--bounded-key" not in argv and "--history" not in argv:
        try:
            json.load(sys.stdin)  # the replay record (unused: the programs are directed by the obligation name)
        except Exception:  # noqa: BLE001
            pass
    import anyio

    root = os.environ.get("SEGVC_REPO", "/repo")
    print(f"anyio imported from {anyio.__file__}")
    if not os.path.abspath(anyio.__file__).startswith(os.path.abspath(root)):
        print(f"reproduced=False reason=anyio was not imported from {root}")
        return 0
    if "--bounded-key" in argv:
        try:
            n = bounded_key()
            print(f"bounded-key: {n} pairs of calls share a cache entry exactly when their arguments are equal (typed: and of equal types)")
            print(f"reproduced=False cases_tried={n}")
        except Fail as e:
            print(f"failing input on the real code: {e}")
            print("failing_histories=" + json.dumps([str(e)]))
            print("reproduced=True")
        return 0
    ob = argv[argv.index("--obligation") + 1] if "--obligation" in argv else ""
    failing = []

    def run(name, coro_fn):
        try:
            anyio.run(coro_fn)
            print(f"program {name}: property holds on this tree")
        except Fail as e:
            print(f"failing input on the real code: {e}")
            failing.append(name)

    if "--history" in argv:
        for h in json.loads(argv[argv.index("--history") + 1]):
            if isinstance(h, str):
                run(h, {**DIRECTED, "lru_order": w_lru_order}[h])
            else:
                run(json.dumps(h), lambda h=h: run_history(h))
        print(f"reproduced={bool(failing)} failing={len(failing)}")
        return 0
    if "after_an_in_flight_entry" in ob:
        run("second_execution_after_inflight_eviction", w_evicted_inflight)
    elif "stored_and_lost_again" in ob:
        run("second_execution_after_value_lost", w_value_lost)
    elif "[KeyError]" in ob:
        run("keyerror_after_inflight_eviction", w_keyerror)
    else:
        run("lru_order", w_lru_order)
        rng = random.Random(int(os.environ.get("VERIF_SEED", "0") or 0))
        tried = 0
        found = None
        while tried < 400 and found is None:
            h = random_history(rng)
            tried += 1
            try:
                anyio.run(run_history, h)
            except Fail as e:
                print(f"failing input on the real code: {e}")
                found = h
        print(f"random histories tried: {tried} (maxsize=None, keys a/b, <= 4 callers)")
        if found is not None:
            failing.append(found)
    if failing:
        print("failing_histories=" + json.dumps(failing))
    print(f"reproduced={bool(failing)} failing={len(failing)}")
    return 0


if __name__ == "__main__":
    sys.exit(main(sys.argv[1:]))
