"""Native failing-input search for C18 (socket streams), run under /venv/bin/python against the REAL anyio code of the
tree the obligations came from (PYTHONPATH=$SEGVC_REPO/src).

A second kind of history, ["unix", size, chunk], drives the real `UNIXSocketStream.send` / `receive` over a real AF_UNIX
socket pair with a small send buffer and a slow reader (partial writes): the peer reads exactly the item.

The real `StreamProtocol`, `SocketStream` and `ResourceGuard` classes of anyio._backends._asyncio are driven over a
*fake transport* (an in-process object with the asyncio.Transport methods the stream uses), so that the order of the
transport's callbacks is under the control of the search: seeded random histories of
    data_received(chunk) / eof_received() / connection_lost(exc?) / pause_writing() / resume_writing()
    receive(max_bytes) / send(item) / aclose() / a second concurrent receive or send
with chunk sizes 1..12 and max_bytes 1..8, are checked against the property's observations: the concatenation of what
receive() returned is a prefix of what was delivered, every returned chunk has 1..max_bytes bytes, end-of-stream /
closed / broken errors only when nothing is queued (and the right one), no wait on a locally closed stream, a second
user of a direction gets BusyResourceError, send() hands the item to the transport exactly once, unchanged, never on a
closed stream, and returns only after waiting for the write gate.

It never decides a verdict on the unchanged tree (the contracts do).  Last stdout line `reproduced=True|False ...`;
found histories are printed as `failing_histories=<json>`; `--history <json>` re-executes them.
"""
from __future__ import annotations

import asyncio
import json
import os
import random
import sys


class Fail(Exception):
    pass


class FakeTransport:
    def __init__(self):
        self.written = []
        self.closing = False
        self.reading = False
        self.log = []
        self.limits = None
        self.refuse_write = False

    def set_write_buffer_limits(self, high=None, low=None):
        self.limits = high

    def is_closing(self):
        return self.closing

    def resume_reading(self):
        self.reading = True
        self.log.append("resume_reading")

    def pause_reading(self):
        self.reading = False
        self.log.append("pause_reading")

    def write(self, data):
        if self.refuse_write:
            raise RuntimeError("transport refuses")
        self.written.append(bytes(data))
        self.log.append("write")

    def write_eof(self):
        self.log.append("write_eof")

    def close(self):
        self.closing = True
        self.log.append("close")

    def abort(self):
        self.closing = True
        self.log.append("abort")

    def get_extra_info(self, name, default=None):
        return default


async def run_history(hist):
    if hist and hist[0] == "unix":
        return await run_unix(hist)
    import anyio
    from anyio import BrokenResourceError, BusyResourceError, ClosedResourceError, EndOfStream
    from anyio._backends._asyncio import SocketStream, StreamProtocol

    tr = FakeTransport()
    proto = StreamProtocol()
    proto.connection_made(tr)
    if tr.limits != 0:
        raise Fail(f"history {hist}: connection_made left the write buffer limit at {tr.limits!r} (no back-pressure)")
    stream = SocketStream(tr, proto)
    delivered = bytearray()
    received = bytearray()
    counter = 0
    at_eof = lost = closed = False
    lost_exc = None

    def fresh(n):
        nonlocal counter
        out = bytes((counter + i) % 251 + 1 for i in range(n))
        counter += n
        return out

    async def bounded(coro, what):
        try:
            return await asyncio.wait_for(coro, 0.5)
        except asyncio.TimeoutError:
            raise Fail(f"history {hist}: {what} blocked although it must not") from None

    for step in hist:
        op = step[0]
        if op == "data":
            if lost:
                continue
            d = fresh(step[1])
            delivered += d
            proto.data_received(d)
        elif op == "eof":
            if not lost and not at_eof:
                at_eof = True
                proto.eof_received()
        elif op == "lost":
            if not lost:
                lost = True
                lost_exc = OSError("boom") if step[1] else None
                tr.closing = True
                proto.connection_lost(lost_exc)
        elif op == "recv":
            mb = step[1]
            pending = len(delivered) - len(received)
            must_not_block = pending > 0 or at_eof or lost or closed
            if not must_not_block:
                # an open connection with nothing queued: receive() has to wait, and then return the data that arrives
                t = asyncio.ensure_future(stream.receive(mb))
                for _ in range(3):
                    await asyncio.sleep(0)
                if t.done():
                    raise Fail(f"history {hist}: receive({mb}) on an open connection with nothing queued did not wait: {t.exception()!r}" if t.exception() else f"history {hist}: receive({mb}) returned {t.result()!r} with nothing delivered")
                d = fresh(2)
                delivered += d
                proto.data_received(d)
                chunk = await bounded(t, "a waiting receive() after data arrived")
                if not (1 <= len(chunk) <= mb):
                    raise Fail(f"history {hist}: receive({mb}) returned {len(chunk)} bytes")
                received += chunk
                if bytes(received) != bytes(delivered[: len(received)]):
                    raise Fail(f"history {hist}: bytes received are not a prefix of the bytes delivered")
                continue
            try:
                chunk = await bounded(stream.receive(mb), f"receive({mb}) with {pending} bytes queued, eof={at_eof}, lost={lost}, closed={closed}")
            except EndOfStream:
                if pending or closed or (lost_exc is not None):
                    raise Fail(f"history {hist}: receive({mb}) raised EndOfStream with {pending} bytes still queued / closed={closed} / transport error={lost_exc!r}") from None
                if not (at_eof or lost):
                    raise Fail(f"history {hist}: receive({mb}) raised EndOfStream on an open connection") from None
                continue
            except ClosedResourceError:
                if pending or not closed:
                    raise Fail(f"history {hist}: receive({mb}) raised ClosedResourceError with {pending} bytes queued, closed={closed}") from None
                continue
            except BrokenResourceError:
                if pending or closed or lost_exc is None:
                    raise Fail(f"history {hist}: receive({mb}) raised BrokenResourceError with {pending} bytes queued, closed={closed}, transport error={lost_exc!r}") from None
                continue
            if not (1 <= len(chunk) <= mb):
                raise Fail(f"history {hist}: receive({mb}) returned {len(chunk)} bytes")
            received += chunk
            if bytes(received) != bytes(delivered[: len(received)]):
                raise Fail(f"history {hist}: after receive({mb}) the bytes received so far are not a prefix of the bytes delivered (loss, duplication or reordering): got ...{bytes(received[-12:])!r}, expected ...{bytes(delivered[: len(received)][-12:])!r}")
            if tr.reading:
                raise Fail(f"history {hist}: reading was left resumed after receive() returned")
        elif op == "busy_recv":
            # one receiver blocked on an empty open stream, a second one must be refused
            if len(delivered) - len(received) > 0 or at_eof or lost or closed:
                continue
            t1 = asyncio.ensure_future(stream.receive(4))
            await asyncio.sleep(0)
            await asyncio.sleep(0)
            try:
                await bounded(stream.receive(4), "a second receive()")
                raise Fail(f"history {hist}: a second concurrent receive() was accepted")
            except BusyResourceError:
                pass
            d = fresh(3)
            delivered += d
            proto.data_received(d)
            chunk = await bounded(t1, "the first receive() after data arrived")
            received += chunk
            if bytes(received) != bytes(delivered[: len(received)]):
                raise Fail(f"history {hist}: bytes out of order after a refused concurrent receive()")
        elif op == "send":
            item = fresh(step[1])
            before = list(tr.written)
            gate_closed = step[2]
            if gate_closed and not closed and not lost:
                proto.pause_writing()
            fut = asyncio.ensure_future(stream.send(item))
            for _ in range(4):
                await asyncio.sleep(0)
            if closed:
                try:
                    await bounded(fut, "send() on a closed stream")
                    raise Fail(f"history {hist}: send() on a locally closed stream succeeded")
                except ClosedResourceError:
                    if tr.written != before:
                        raise Fail(f"history {hist}: send() on a closed stream still handed bytes to the transport") from None
                continue
            if lost_exc is not None:
                try:
                    await bounded(fut, "send() on a broken stream")
                    raise Fail(f"history {hist}: send() on a broken stream succeeded")
                except BrokenResourceError:
                    if tr.written != before:
                        raise Fail(f"history {hist}: send() on a broken stream still wrote") from None
                continue
            if gate_closed and not lost:
                if fut.done():
                    raise Fail(f"history {hist}: send() returned although the transport had paused writing (no back-pressure)")
                proto.resume_writing()
            await bounded(fut, "send() with the write gate open")
            if tr.written != before + [item]:
                raise Fail(f"history {hist}: send() handed {tr.written[len(before):]!r} to the transport instead of the item once")
        elif op == "close":
            if not closed:
                closed = True
                await bounded(stream.aclose(), "aclose()")
                if not tr.closing:
                    raise Fail(f"history {hist}: aclose() left the transport open")


async def run_unix(hist):
    """["unix", size, reader_chunk]: a real AF_UNIX socket pair; the real UNIXSocketStream.send() of one item of `size`
    bytes against a slow reader (so that the kernel takes the item in several partial writes), then receive(max_bytes)
    on the other side: the peer must read exactly the item, once, in order; receive() returns 1..max_bytes bytes."""
    import socket

    from anyio._backends._asyncio import UNIXSocketStream

    _, size, chunk = hist
    a, b = socket.socketpair(socket.AF_UNIX, socket.SOCK_STREAM)
    try:
        a.setblocking(False)
        b.setblocking(False)
        a.setsockopt(socket.SOL_SOCKET, socket.SO_SNDBUF, 4096)
        sa, sb = UNIXSocketStream(a), UNIXSocketStream(b)
        item = bytes((i * 7 + i // 251) % 251 + 1 for i in range(size))
        got = bytearray()

        async def reader():
            while len(got) < size + 64:
                try:
                    d = await asyncio.wait_for(sb.receive(chunk), 2)
                except (asyncio.TimeoutError, Exception):  # noqa: BLE001
                    return
                if not (1 <= len(d) <= chunk):
                    raise Fail(f"history {hist}: UNIX receive({chunk}) returned {len(d)} bytes")
                got.extend(d)
                if len(got) % 5 == 0:
                    await asyncio.sleep(0)

        rt = asyncio.ensure_future(reader())
        try:
            await asyncio.wait_for(sa.send(item), 20)
        except asyncio.TimeoutError:
            raise Fail(f"history {hist}: UNIX send() of {size} bytes did not finish") from None
        await sa.aclose()
        await rt
        if bytes(got) != item:
            n = next((i for i, (x, y) in enumerate(zip(got, item)) if x != y), min(len(got), len(item)))
            raise Fail(f"history {hist}: the peer of a UNIX stream read {len(got)} bytes for an item of {size} bytes; first difference at offset {n} (bytes lost, duplicated or reordered by the partial-write loop)")
    finally:
        a.close()
        b.close()


def random_history(rng):
    n = rng.randint(3, 10)
    hist = []
    for _ in range(n):
        r = rng.random()
        if r < 0.35:
            hist.append(["data", rng.randint(1, 12)])
        elif r < 0.70:
            hist.append(["recv", rng.randint(1, 8)])
        elif r < 0.76:
            hist.append(["eof"])
        elif r < 0.80:
            hist.append(["lost", rng.random() < 0.5])
        elif r < 0.90:
            hist.append(["send", rng.randint(1, 6), rng.random() < 0.5])
        elif r < 0.95:
            hist.append(["busy_recv"])
        else:
            hist.append(["close"])
    # finish by draining
    hist += [["eof"], ["recv", 3], ["recv", 8], ["recv", 8], ["recv", 8], ["recv", 8]]
    return hist


DIRECTED = [
    [["data", 8], ["recv", 8], ["recv", 8], ["eof"], ["recv", 4]],  # a chunk of exactly max_bytes
    [["data", 9], ["data", 3], ["recv", 4], ["recv", 4], ["recv", 4], ["recv", 4], ["eof"], ["recv", 4]],  # split + later data
    [["data", 2], ["recv", 8], ["data", 2], ["recv", 8], ["eof"], ["recv", 1]],  # event cleared and set again
    [["send", 3, True], ["send", 2, False]],
    [["data", 5], ["close"], ["recv", 3], ["recv", 3], ["recv", 3], ["send", 1, False]],
    [["busy_recv"], ["recv", 2], ["recv", 2]],
    [["data", 4], ["lost", True], ["recv", 8], ["recv", 8], ["send", 1, False]],
    ["unix", 300000, 4096],
    ["unix", 70001, 100],
    ["unix", 10, 3],
]


def main(argv):
    if "--history" not in argv:
        try:
            json.load(sys.stdin)
        except Exception:  # noqa: BLE001
            pass
    import anyio

    root = os.environ.get("SEGVC_REPO", "/repo")
    print(f"anyio imported from {anyio.__file__}")
    if not os.path.abspath(anyio.__file__).startswith(os.path.abspath(root)):
        print(f"reproduced=False reason=anyio was not imported from {root}")
        return 0
    if "--history" in argv:
        hs = json.loads(argv[argv.index("--history") + 1])
        again = 0
        for h in hs:
            try:
                asyncio.run(run_history(h))
                print(f"history {h}: property holds on this tree")
            except Fail as e:
                again += 1
                print(f"FAILS on this tree: {e}")
        print(f"reproduced={again > 0} histories_rerun={len(hs)} failing={again}")
        return 0
    rng = random.Random(int(os.environ.get("VERIF_SEED", "0") or 0))
    found = None
    tried = 0
    for h in DIRECTED + [random_history(rng) for _ in range(1500)]:
        tried += 1
        try:
            asyncio.run(run_history(h))
        except Fail as e:
            print(f"failing input on the real code: {e}")
            found = h
            break
    print(f"histories tried: {tried}")
    if found is not None:
        print("failing_histories=" + json.dumps([found]))
    print(f"reproduced={found is not None}")
    return 0


if __name__ == "__main__":
    sys.exit(main(sys.argv[1:]))
