"""Native failing-input search for C17 (TLS pump), run under /venv/bin/python against the REAL anyio code of the tree the
obligations came from (PYTHONPATH=$SEGVC_REPO/src).

The real `TLSStream._call_sslobject_method`, `receive`, `send` run over REAL `ssl.MemoryBIO` objects, a scripted fake
SSL object (each call: optionally writes ciphertext of a scripted size into the outgoing BIO, then returns a result or
raises SSLWantReadError / SSLWantWriteError / SSLSyscallError / SSLEOFError / SSLError) and a fake transport stream
(records what it is sent; delivers scripted chunks, EndOfStream or an OSError).  Seeded random scripts with ciphertext
sizes 0 .. 200 000 bytes are checked against the pump's contract: when it waits for input and when it returns, the
outgoing BIO is empty; the transport has been sent exactly the bytes written into the outgoing BIO, in order; the bytes
delivered by the transport are in the incoming BIO unchanged; the error mapping of the property; receive() never
returns more than max_bytes.

It never decides a verdict on the unchanged tree.  Last stdout line `reproduced=True|False ...`; found scripts are
printed as `failing_histories=<json>`; `--history <json>` re-executes them.
"""
from __future__ import annotations

import asyncio
import json
import os
import random
import ssl
import sys


class Fail(Exception):
    pass


class FakeTransport:
    def __init__(self, script, hist):
        self.sent = bytearray()
        self.script = list(script)  # items: int n (deliver n bytes) | "eof" | "oserror"
        self.delivered = bytearray()
        self.hist = hist
        self.pump = None
        self.counter = 0

    async def send(self, data):
        self.sent += data
        await asyncio.sleep(0)

    async def receive(self, max_bytes=65536):
        from anyio import EndOfStream

        # the pump waits for input: everything pending must have been flushed
        if self.pump._write_bio.pending:
            raise Fail(f"script {self.hist}: the pump waits for input while {self.pump._write_bio.pending} bytes of output are still pending in the outgoing BIO (the peer would wait for them forever)")
        await asyncio.sleep(0)
        item = self.script.pop(0) if self.script else "eof"
        if item == "eof":
            raise EndOfStream
        if item == "oserror":
            raise ConnectionResetError("reset")
        chunk = bytes((self.counter + i) % 251 + 1 for i in range(item))
        self.counter += item
        self.delivered += chunk
        return chunk

    async def aclose(self):
        pass

    @property
    def extra_attributes(self):
        return {}


class FakeSSL:
    def __init__(self, out_bio, script, hist):
        self.out = out_bio
        self.script = list(script)  # items: (ciphertext_size, outcome)
        self.written = bytearray()
        self.hist = hist
        self.n = 0

    def op(self, *args):
        size, outcome = self.script.pop(0) if self.script else (0, "result")
        if size:
            data = bytes((self.n + i) % 249 + 2 for i in range(size))
            self.n += size
            self.out.write(data)
            self.written += data
        if outcome == "result":
            return ("result", args)
        if outcome == "want_read":
            raise ssl.SSLWantReadError()
        if outcome == "want_write":
            raise ssl.SSLWantWriteError()
        if outcome == "syscall":
            raise ssl.SSLSyscallError()
        if outcome == "eof":
            raise ssl.SSLEOFError()
        if outcome == "unexpected_eof":
            e = ssl.SSLError(1, "[SSL: UNEXPECTED_EOF_WHILE_READING] EOF occurred in violation of protocol")
            raise e
        raise ssl.SSLError(1, "[SSL] some other failure")


async def run_script(hist):
    from anyio import BrokenResourceError, EndOfStream
    from anyio.streams.tls import TLSStream

    ssl_script, tr_script, standard = hist
    tr = FakeTransport(tr_script, hist)
    bio_in, bio_out = ssl.MemoryBIO(), ssl.MemoryBIO()
    fake = FakeSSL(bio_out, [tuple(x) for x in ssl_script], hist)
    stream = TLSStream(transport_stream=tr, standard_compatible=standard, _ssl_object=fake, _read_bio=bio_in, _write_bio=bio_out)
    tr.pump = stream
    outcome, exc = None, None
    last = [o for _, o in ssl_script]
    try:
        outcome = await asyncio.wait_for(stream._call_sslobject_method(fake.op, "arg"), 5)
    except Fail:
        raise
    except BaseException as e:  # noqa: BLE001
        exc = e
    fed = bio_in.read()
    if bytes(fed) != bytes(tr.delivered):
        raise Fail(f"script {hist}: the incoming BIO holds {len(fed)} bytes, the transport delivered {len(tr.delivered)}: chunks were not fed unchanged and in order")
    pending = bio_out.pending
    if bytes(tr.sent) + bio_out.read() != bytes(fake.written):
        raise Fail(f"script {hist}: the transport was sent {len(tr.sent)} bytes (+{pending} still pending) but {len(fake.written)} bytes of ciphertext were produced, or their order differs")
    consumed = len(ssl_script) - len(fake.script)
    final = ssl_script[consumed - 1][1] if consumed else "result"
    if exc is None:
        if pending:
            raise Fail(f"script {hist}: the pump returned with {pending} bytes of output still pending in the outgoing BIO")
        if outcome != ("result", ("arg",)):
            raise Fail(f"script {hist}: the pump returned {outcome!r} instead of the SSL call's own result for the caller's arguments")
        return
    name = type(exc).__name__
    if final == "syscall" and not isinstance(exc, BrokenResourceError):
        raise Fail(f"script {hist}: SSLSyscallError surfaced as {name}")
    if final in ("eof", "unexpected_eof"):
        want = BrokenResourceError if standard else EndOfStream
        if not isinstance(exc, want):
            raise Fail(f"script {hist}: an unexpected EOF with standard_compatible={standard} surfaced as {name} instead of {want.__name__}")
    if final == "other" and not (isinstance(exc, ssl.SSLError) and not isinstance(exc, (ssl.SSLEOFError, ssl.SSLSyscallError))):
        raise Fail(f"script {hist}: another SSLError surfaced as {name}")
    if final == "want_read" and not isinstance(exc, BrokenResourceError):
        raise Fail(f"script {hist}: a transport error while waiting for input surfaced as {name}")
    if isinstance(exc, EndOfStream) and not (final in ("eof", "unexpected_eof") and not standard):
        raise Fail(f"script {hist}: the pump itself reported EndOfStream (after {final})")
    if isinstance(exc, asyncio.TimeoutError):
        raise Fail(f"script {hist}: the pump did not finish")


def random_script(rng):
    n = rng.randint(1, 5)
    sizes = [0, 0, 1, 100, 5000, 70000, 200000]
    ssl_script = []
    tr_script = []
    for i in range(n - 1):
        o = rng.choice(["want_read", "want_read", "want_write"])
        ssl_script.append([rng.choice(sizes), o])
        if o == "want_read":
            tr_script.append(rng.choice([1, 50, 16384]))
    ssl_script.append([rng.choice(sizes), rng.choice(["result", "result", "result", "syscall", "eof", "unexpected_eof", "other", "want_read"])])
    if ssl_script[-1][1] == "want_read":
        tr_script.append(rng.choice(["oserror", "eof"]))
        if tr_script[-1] == "eof":
            ssl_script.append([0, rng.choice(["eof", "result"])])
    return [ssl_script, tr_script, rng.random() < 0.5]


DIRECTED = [
    [[[70000, "result"]], [], True],
    [[[200000, "want_read"], [0, "result"]], [10], True],
    [[[100, "want_write"], [70000, "result"]], [], False],
    [[[0, "want_read"], [0, "eof"]], ["eof"], False],
    [[[0, "want_read"], [0, "eof"]], ["eof"], True],
]


async def receive_bound():
    """receive(max_bytes) asks the SSL object for at most max_bytes"""
    from anyio.streams.tls import TLSStream

    class SSLObj:
        def __init__(self):
            self.asked = []

        def pending(self):
            return 16284

        def read(self, n):
            self.asked.append(n)
            return b"x" * n

    class SilentTransport(FakeTransport):
        async def receive(self, max_bytes=65536):
            await asyncio.sleep(3600)  # the peer sends nothing more

    # the SSL object still holds decrypted data of a record that was read only in part: receive() must hand it out without
    # waiting for the transport
    o = SSLObj()
    tr = SilentTransport([], "receive_bound")
    s = TLSStream(transport_stream=tr, standard_compatible=True, _ssl_object=o, _read_bio=ssl.MemoryBIO(), _write_bio=ssl.MemoryBIO())
    tr.pump = s
    try:
        data = await asyncio.wait_for(s.receive(100), 1.0)
    except asyncio.TimeoutError:
        raise Fail("receive(100) waits for the transport although the SSL object holds decrypted data (incoming BIO empty, peer silent)") from None
    if not (1 <= len(data) <= 100):
        raise Fail(f"receive(100) returned {len(data)} bytes")

    for mb in (1, 100, 4096, 16384):
        o = SSLObj()
        tr = FakeTransport([], "receive_bound")
        s = TLSStream(transport_stream=tr, standard_compatible=True, _ssl_object=o, _read_bio=ssl.MemoryBIO(), _write_bio=ssl.MemoryBIO())
        tr.pump = s
        for _ in range(2):
            data = await s.receive(mb)
            if len(data) > mb:
                raise Fail(f"receive({mb}) returned {len(data)} bytes (the SSL object was asked for {o.asked})")


def main(argv):
    if "--history" not in argv:
        try:
            json.load(sys.stdin)
        except Exception:  # noqa: BLE001
            pass
    import anyio

    root = os.environ.get("SEGVC_REPO", "/repo")
    print(f"anyio imported from {anyio.__file__}")
    if not os.path.abspath(anyio.__file__).startswith(os.path.abspath(root)):
        print(f"reproduced=False reason=anyio was not imported from {root}")
        return 0
    if "--history" in argv:
        hs = json.loads(argv[argv.index("--history") + 1])
        again = 0
        for h in hs:
            try:
                asyncio.run(receive_bound() if h == "receive_bound" else run_script(h))
                print(f"script {h}: property holds on this tree")
            except Fail as e:
                again += 1
                print(f"FAILS on this tree: {e}")
        print(f"reproduced={again > 0} histories_rerun={len(hs)} failing={again}")
        return 0
    rng = random.Random(int(os.environ.get("VERIF_SEED", "0") or 0))
    found = None
    tried = 0
    try:
        asyncio.run(receive_bound())
    except Fail as e:
        print(f"failing input on the real code: {e}")
        found = "receive_bound"
    if found is None:
        for h in DIRECTED + [random_script(rng) for _ in range(400)]:
            tried += 1
            try:
                asyncio.run(run_script(h))
            except Fail as e:
                print(f"failing input on the real code: {e}")
                found = h
                break
    print(f"scripts tried: {tried}")
    if found is not None:
        print("failing_histories=" + json.dumps([found]))
    print(f"reproduced={found is not None}")
    return 0


if __name__ == "__main__":
    sys.exit(main(sys.argv[1:]))
